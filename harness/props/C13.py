"""C13 — NDCollection keeps its aligned-axis bookkeeping true under every edit."""
import copy, itertools, random
import numpy as np

import common as C
from core import err_kind

ID = "C13"
MODEL_OP = "collection"
RULE = ("collections of 1-3 members (cubes of 2-4 dims, sometimes an NDCubeSequence of equal cubes), aligned axes = "
        "any equal-length axis tuples in any per-member order (0-4 aligned axes, or none), then edit histories of "
        "depth 1-3 (quick) / 1-4 (thorough) over {numeric slice by int / slice / tuple, select keys, copy, pop, del, "
        "update with compatible / incompatible collections, setitem, setdefault, popitem, keys mixed with indices, "
        "too many indices}; derived collections are carried forward. Non-trivial = at least one accepted edit that "
        "changes keys or aligned axes; distinct = (members, aligned axes, history)")
TRUSTED = ["numpy indexing as the reference for member data", "C01 / C11 for what slicing a member does"]
ASSUMPTIONS = ["aligned axes are non-negative and distinct within a member (the documented input form)",
               "refusals are compared as refusals; the exception class is compared where the property names the case"]


def corpus():
    return C.read_corpus(ID)


# ---------------------------------------------------------------- reference (straight from the statement)
class Ref:
    def __init__(self, members, aligned):
        self.members = dict(members)                 # key -> shape
        self.aligned = None if aligned is None else dict(aligned)   # key -> tuple

    def n_aligned(self):
        if self.aligned is None or not self.aligned:
            return 0
        return len(next(iter(self.aligned.values())))

    def clone(self):
        return Ref(list(self.members.items()), None if self.aligned is None else list(self.aligned.items()))

    def slice(self, its):
        """returns (new Ref, per-member python index) or raises"""
        if self.aligned is None:
            raise IndexError
        if len(its) > self.n_aligned():
            raise IndexError
        new_m, new_a, idxs = [], [], {}
        for k, sh in self.members.items():
            axes = self.aligned[k]
            idx = [slice(None)] * len(sh)
            for it, a in zip(its, axes):
                idx[a] = C.to_py_item(it)
            out = np.zeros(sh)[tuple(idx)]
            if out.ndim == 0:
                raise ValueError
            dropped = [a for it, a in zip(its, axes) if not isinstance(it, dict)]
            kept = [a for i, a in enumerate(axes) if i >= len(its) or isinstance(its[i], dict)]
            new_m.append((k, list(out.shape)))
            new_a.append((k, tuple(a - sum(1 for d in dropped if d < a) for a in kept)))
            idxs[k] = tuple(idx)
        if not new_a[0][1]:
            new_a = None
        return Ref(new_m, new_a), idxs


# ---------------------------------------------------------------- generation
def gen_members(rng):
    n = rng.randint(1, 3)
    nal = rng.choice([0, 1, 2, 2, 3, 3, 4])
    dims = [rng.randint(2, 4) for _ in range(nal)]
    members, axes = [], []
    for k in range(n):
        nd = rng.randint(max(2, nal), 4) if nal <= 4 else 4
        shape = [rng.randint(1, 4) for _ in range(nd)]
        ax = rng.sample(range(nd), nal) if nal <= nd else list(range(nd))
        for a, d in zip(ax, dims):
            shape[a] = d
        # a sequence member keeps at least one un-aligned cube axis (its cubes can never become scalars)
        members.append({"key": k, "shape": shape, "seq": nd >= 3 and nal < nd - 1 and rng.random() < 0.15})
        axes.append(ax)
    return members, (axes if nal > 0 else None)


def gen_item(rng, n):
    n = max(n, 1)
    r = rng.random()
    if r < 0.4:
        return rng.randint(-n, n - 1) if rng.random() < 0.9 else n + 1
    if r < 0.55:
        return C.sl()
    return C.sl(C.gen_bound(rng, n, 1), C.gen_bound(rng, n, 1))


def gen_op(rng, ref, next_key):
    keys = list(ref.members.keys())
    nal = ref.n_aligned()
    r = rng.random()
    if r < 0.45:
        if nal == 0 or rng.random() < 0.05:
            return {"kind": "slice", "index": {"tuple": [0]}}
        if rng.random() < 0.07:
            return {"kind": "slice", "index": {"tuple": [C.sl()] * (nal + 1)}}      # too many indices
        first = keys[0]
        dims = [ref.members[first][a] for a in ref.aligned[first]]
        m = rng.randint(1, nal)
        its = [gen_item(rng, dims[i]) for i in range(m)]
        if m == 1 and rng.random() < 0.5:
            return {"kind": "slice", "index": {"single": its[0]}}
        return {"kind": "slice", "index": {"tuple": its}}
    if r < 0.55:
        ks = rng.sample(keys, rng.randint(1, len(keys)))
        if rng.random() < 0.1:
            ks = ks + [99]
        return {"kind": "select", "keys": ks}
    if r < 0.6:
        return {"kind": "copy"}
    if r < 0.7:
        return {"kind": rng.choice(["pop", "del"]), "key": rng.choice(keys + [99]) if len(keys) > 1 else 99}
    if r < 0.88:
        # update with a new collection: compatible (same aligned dims, own axis order) or not
        nk = rng.choice([next_key, next_key, keys[0]])
        if nal == 0:
            nd = rng.randint(2, 3)
            shape = [rng.randint(1, 4) for _ in range(nd)]
            axes = None if rng.random() < 0.8 else [[0]]
        else:
            first = keys[0]
            dims = [ref.members[first][a] for a in ref.aligned[first]]
            nd = rng.randint(max(2, nal), 4)
            shape = [rng.randint(1, 4) for _ in range(nd)]
            ax = rng.sample(range(nd), nal)
            for a, d in zip(ax, dims):
                shape[a] = d
            axes = [ax]
            q = rng.random()
            if q < 0.15:
                shape[ax[0]] += 1            # incompatible length
            elif q < 0.25 and nal > 1:
                axes = [ax[:-1]]             # fewer aligned axes
            elif q < 0.32:
                axes = None                  # one side without aligned axes
        return {"kind": "update", "other": {"members": [{"key": nk, "shape": shape, "seq": False}], "axes": axes}}
    return {"kind": rng.choice(["setitem", "setdefault", "popitem", "mixed"])}


def ref_apply(ref, op):
    """Reference semantics of one edit; returns new Ref or raises (refusal)."""
    k = op["kind"]
    if k == "slice":
        ix = op["index"]
        its = ix["tuple"] if "tuple" in ix else [ix["single"]]
        return ref.slice(its)[0]
    if k == "select":
        if any(x not in ref.members for x in op["keys"]):
            raise KeyError
        return Ref([(x, ref.members[x]) for x in op["keys"]],
                   None if ref.aligned is None else [(x, ref.aligned[x]) for x in op["keys"]])
    if k == "copy":
        return ref.clone()
    if k in ("pop", "del"):
        if op["key"] not in ref.members:
            raise KeyError
        new = ref.clone()
        del new.members[op["key"]]
        if new.aligned is not None:
            del new.aligned[op["key"]]
        return new
    if k == "update":
        o = op["other"]
        oax = o["axes"]
        new = ref.clone()
        if (oax is None) != (ref.aligned is None):
            raise ValueError
        if oax is not None:
            first = next(iter(ref.members))
            dims = [ref.members[first][a] for a in ref.aligned[first]]
            for m, ax in zip(o["members"], oax):
                if len(ax) != len(dims) or [m["shape"][a] for a in ax] != dims:
                    raise ValueError
        for i, m in enumerate(o["members"]):
            new.members[m["key"]] = m["shape"]
            if oax is not None:
                new.aligned[m["key"]] = tuple(oax[i])
        return new
    raise NotImplementedError


def generate(rng, tier):
    n = 900 if tier == "quick" else 100000
    depth_max = 3 if tier == "quick" else 4
    for _ in range(n):
        members, axes = gen_members(rng)
        ref = Ref([(m["key"], m["shape"]) for m in members],
                  None if axes is None else [(m["key"], tuple(a)) for m, a in zip(members, axes)])
        ops = []
        nk = 10
        for _ in range(rng.randint(1, depth_max)):
            op = gen_op(rng, ref, nk)
            nk += 1
            ops.append(op)
            try:
                if len(ref.members) == 0:
                    break
                ref = ref_apply(ref, op)
            except Exception:
                pass
            if not ref.members:
                break
        yield {"members": members, "axes": axes, "ops": ops, "wseed": rng.randrange(10**6)}
    # the documented failing input of the repaired defect and its relatives, systematically
    for perm2 in itertools.permutations(range(4), 3):
        for its in ([0, C.sl(), 0], [C.sl(), 0, 0], [0, 0, C.sl()], [0, C.sl(), C.sl()], [C.sl(), 0, C.sl()], [C.sl(), C.sl(), 0]):
            yield {"members": [{"key": 0, "shape": [2, 3, 4], "seq": False}, {"key": 1, "shape": [0, 0, 0, 0], "seq": False, "fit": list(perm2)}],
                   "axes": [[0, 1, 2], list(perm2)], "ops": [{"kind": "slice", "index": {"tuple": its}}], "wseed": 1}

    # four aligned axes, two to four of them indexed away in one item (every position pattern), the second
    # member holding them in another order: the later drops must follow the renumbering of the earlier ones
    perms4 = list(itertools.permutations(range(4)))
    for perm4 in (perms4 if tier != "quick" else perms4[1::3]):
        for bits in itertools.product([0, 1], repeat=4):
            if sum(bits) < 2:
                continue
            its = [0 if b else C.sl() for b in bits]
            yield {"members": [{"key": 0, "shape": [2, 3, 4, 2], "seq": False}, {"key": 1, "shape": [0, 0, 0, 0], "seq": False, "fit": list(perm4)}],
                   "axes": [[0, 1, 2, 3], list(perm4)], "ops": [{"kind": "slice", "index": {"tuple": its}}], "wseed": 1}


# ---------------------------------------------------------------- implementation
def build_member(m, wseed):
    from ndcube import NDCubeSequence
    shape = list(m["shape"])
    if m.get("seq"):
        cubes = [C.build_cube(shape[1:], m["key"] * 10 + j, "probe", wseed) for j in range(shape[0])]
        # payload of cube j is offset so that the stacked array is np.arange-like per cube id
        return NDCubeSequence(cubes)
    return C.build_cube(shape, m["key"], "probe", wseed)


def member_array(obj):
    from ndcube import NDCubeSequence
    if isinstance(obj, NDCubeSequence):
        return np.stack([np.asarray(c.data) for c in obj.data]) if obj.data else np.zeros((0,))
    return np.asarray(obj.data)


def fit(case):
    """fill in the shape of members declared with 'fit' (aligned dims copied from member 0)"""
    members = copy.deepcopy(case["members"])
    for m, ax in zip(members, case["axes"] or []):
        if "fit" in m:
            m0, a0 = members[0], case["axes"][0]
            sh = [2] * len(m["shape"])
            for a, b in zip(ax, a0):
                sh[a] = m0["shape"][b]
            m["shape"] = sh
    return members


def K(k):
    return f"k{k}"


def unK(s):
    return int(s[1:])


def observe(col):
    al = col.aligned_axes
    return {"keys": [unK(k) for k in col.keys()],
            "aligned": None if al is None else [[unK(k), [int(a) for a in v]] for k, v in al.items()],
            "shapes": [[int(x) for x in member_array(v).shape] for v in col.values()],
            "dims": None if col.aligned_dimensions is None else [int(x) for x in col.aligned_dimensions]}


def check_inv(col, fails):
    al = col.aligned_axes
    if al is None:
        return
    if list(al.keys()) != list(col.keys()) or not all(isinstance(k, str) for k in col.keys()):
        fails.append(f"keys {list(col.keys())} and aligned-axes entries {list(al.keys())} differ")
        return
    dims = None
    for k, v in col.items():
        sh = member_array(v).shape
        ax = [int(a) for a in al[k]]
        if any(a < 0 or a >= len(sh) for a in ax):
            fails.append(f"member {k}: aligned axes {ax} do not exist on shape {sh}")
            return
        d = [sh[a] for a in ax]
        if dims is None:
            dims = d
        elif d != dims:
            fails.append(f"member {k}: aligned dimensions {d} differ from {dims}")
            return
    if col.aligned_dimensions is not None and [int(x) for x in col.aligned_dimensions] != dims:
        fails.append(f"aligned_dimensions {list(col.aligned_dimensions)} != {dims}")


def run(case):
    from ndcube import NDCollection, NDCubeSequence
    members = fit(case)
    case = {**case, "members": members}
    tags = [f"members={len(members)}", "naligned=%d" % (len(case["axes"][0]) if case["axes"] else 0), f"depth={len(case['ops'])}"]
    res = {"tags": tags, "oracle": None, "case_fitted": case,
           "model_req": {"op": "collection", "members": [{"key": m["key"], "shape": m["shape"]} for m in members],
                         "axes": case["axes"], "ops": [strip(op) for op in case["ops"]]}}
    objs = [(K(m["key"]), build_member(m, case["wseed"])) for m in members]
    axes = None if case["axes"] is None else tuple(tuple(a) for a in case["axes"])
    try:
        coll_cls = NDCollection
        if case["wseed"] % 4 == 2:
            # a subclass (an instrument package's own collection): what is derived from it is again of the subclass
            class TrackedCollection(NDCollection):
                @property
                def n_members(self):
                    return len(self)
            coll_cls = TrackedCollection
        col = coll_cls(objs, aligned_axes=axes, meta={"c": 1})
    except Exception as e:
        res["impl"] = {"init_err": err_kind(e), "steps": []}
        res["oracle"] = f"constructor refused valid aligned axes {case['axes']}: {type(e).__name__}: {str(e)[:100]}"
        return res
    ref = Ref([(m["key"], m["shape"]) for m in members], None if axes is None else [(m["key"], a) for m, a in zip(members, axes)])
    arrays = {m["key"]: member_array(o) for m, (_, o) in zip(members, objs)}   # expected member data
    steps, fails, changed = [], [], False
    try:
        check_inv(col, fails)
        for op in case["ops"]:
            if fails:
                break
            before = observe(col)
            k = op["kind"]
            tags.append("op=" + k)
            exp_err, new_ref, idxs = None, None, None
            try:
                if k == "slice":
                    ix = op["index"]
                    its = ix["tuple"] if "tuple" in ix else [ix["single"]]
                    new_ref, idxs = ref.slice(its)
                else:
                    new_ref = ref_apply(ref, op)
            except Exception as e:
                exp_err = type(e).__name__
            try:
                if k == "slice":
                    ix = op["index"]
                    out = col[C.to_py_index(ix["tuple"], npint=C.npint_of(case))] if "tuple" in ix else col[C.to_py_item(ix["single"], C.npint_of(case))]
                elif k == "select":
                    out = col[tuple(K(x) for x in op["keys"])]
                elif k == "copy":
                    out = col.copy()
                elif k == "pop":
                    col.pop(K(op["key"])); out = col
                elif k == "del":
                    del col[K(op["key"])]; out = col
                elif k == "update":
                    o = op["other"]
                    oobjs = [(K(m["key"]), build_member(m, case["wseed"] + 1)) for m in o["members"]]
                    other = NDCollection(oobjs, aligned_axes=None if o["axes"] is None else tuple(tuple(a) for a in o["axes"]))
                    col.update(other); out = col
                    if exp_err is None:
                        for (kk, oo) in oobjs:
                            arrays[unK(kk)] = member_array(oo)
                elif k == "setitem":
                    col[list(col.keys())[0]] = col[list(col.keys())[0]]; out = col
                elif k == "setdefault":
                    col.setdefault(); out = col
                elif k == "popitem":
                    col.popitem(); out = col
                elif k == "mixed":
                    out = col[(list(col.keys())[0], 0)]
                err = None
                if isinstance(out, NDCollection) and type(out) is not type(col):
                    fails.append(f"{k} of a {type(col).__name__} returned a {type(out).__name__}")
            except Exception as e:
                err, out = err_kind(e), None
            tags.append(f"{k}:{err or 'ok'}")
            if err:
                steps.append({"err": err})
                after = observe(col)
                if after != before:
                    fails.append(f"refused edit {op} ({err}) changed the collection: {before} -> {after}")
                if exp_err is None:
                    fails.append(f"supported edit {op} refused with {err}")
                elif k in ("setitem", "setdefault", "popitem") and err != "NotImplementedError":
                    fails.append(f"{k} raised {err}")
                elif k == "mixed" and err != "TypeError":
                    fails.append(f"mixing keys and indices raised {err}")
                continue
            if exp_err is not None:
                fails.append(f"edit {op} should be refused ({exp_err}) but was accepted")
                break
            if any(isinstance(v, NDCubeSequence) and not v.data for v in out.values()):
                tags.append("stopped:empty-sequence-member")   # an empty sequence has no observable shape
                res["model_req"]["ops"] = res["model_req"]["ops"][:len(steps)]
                break
            col, ref = out, new_ref
            changed = changed or k != "copy"
            if k == "slice":
                arrays = {kk: arrays[kk][idxs[kk]] for kk in ref.members}
            elif k == "select":
                arrays = {kk: arrays[kk] for kk in ref.members}
            elif k in ("pop", "del"):
                arrays.pop(op["key"], None)
            st = observe(col)
            steps.append({"state": st})
            check_inv(col, fails)
            if st["keys"] != list(ref.members.keys()):
                fails.append(f"after {op}: keys {st['keys']}, expected {list(ref.members.keys())}")
            exp_al = None if ref.aligned is None else [[kk, list(v)] for kk, v in ref.aligned.items()]
            if st["aligned"] != exp_al:
                fails.append(f"after {op}: aligned axes {st['aligned']}, expected {exp_al} (same physical axes renumbered)")
            for kk, v in col.items():
                kk = unK(kk)
                got = member_array(v)
                if got.shape != arrays[kk].shape or not np.array_equal(got, arrays[kk]):
                    fails.append(f"after {op}: member {kk} does not hold the elements of slicing it along its own aligned axes")
                    break
    except Exception as e:
        import traceback
        fails.append(f"observing the collection raised {type(e).__name__}: {str(e)[:160]}")
        res["trace"] = traceback.format_exc()[-800:]
    res["impl"] = {"init_err": None, "steps": steps}
    if changed:
        res["nontrivial"] = repr((members, case["axes"], case["ops"]))
    if fails:
        res["oracle"] = "; ".join(fails[:2])
    return res


def strip(op):
    if op["kind"] == "update":
        o = op["other"]
        return {"kind": "update", "other": {"members": [{"key": m["key"], "shape": m["shape"]} for m in o["members"]], "axes": o["axes"]}}
    return op


def compare(case, r, m):
    impl = r["impl"]
    if "err" in m.get("init", {}):
        return None if impl["init_err"] else f"model refuses the constructor ({m['init']['err']}), implementation accepts"
    if impl["init_err"]:
        return f"implementation refuses the constructor ({impl['init_err']}), model accepts"
    for i, (a, b) in enumerate(zip(impl["steps"], m["steps"])):
        if "err" in a or "err" in b:
            if ("err" in a) != ("err" in b):
                return f"step {i}: implementation {a.get('err', 'accepts')} vs model {b.get('err', 'accepts')}"
            continue
        sa, sb = a["state"], b["state"]
        al = None if sb["aligned"] is None else [[e["key"], e["axes"]] for e in sb["aligned"]]
        if sa["keys"] != sb["keys"]:
            return f"step {i}: keys {sa['keys']} vs model {sb['keys']}"
        if sa["aligned"] != al:
            return f"step {i}: aligned axes {sa['aligned']} vs model {al}"
        if sa["shapes"] != sb["shapes"]:
            return f"step {i}: member shapes {sa['shapes']} vs model {sb['shapes']}"
    return None


def signature(case, failure):
    return "other:" + failure[:60]


def shrink(case):
    ops = case["ops"]
    if len(ops) > 1:
        for i in range(len(ops)):
            yield {**case, "ops": ops[:i] + ops[i + 1:]}
    if len(case["members"]) > 1 and case["axes"] is not None:
        for i in range(1, len(case["members"])):
            yield {**case, "members": case["members"][:i] + case["members"][i + 1:], "axes": case["axes"][:i] + case["axes"][i + 1:]}
